"""Shared generators and instrumented objects (stdlib only).

* access-logging containers (LogDict, LogList, LogObj) placed inside targets
* Fn: tagged callable with programmable behaviour and a call log
* recipe-based nested targets: a recipe is a plain nested description, `build(recipe)`
  turns it into objects, so a twin with identical shape but disjoint identity can
  always be produced by building twice.
"""
import collections
from collections import OrderedDict


# ---------------------------------------------------------------------------
# logging containers: every element access is appended to a shared log

class LogDict(dict):
    def __init__(self, *a, **kw):
        dict.__init__(self, *a, **kw)
        self._log = None

    def __getitem__(self, k):
        if self._log is not None:
            self._log.append(('getitem', id(self), _k(k)))
        return dict.__getitem__(self, k)

    def __setitem__(self, k, v):
        if getattr(self, '_log', None) is not None:
            self._log.append(('setitem', id(self), _k(k)))
        dict.__setitem__(self, k, v)

    def __delitem__(self, k):
        if self._log is not None:
            self._log.append(('delitem', id(self), _k(k)))
        dict.__delitem__(self, k)

    def __repr__(self):
        return 'LogDict(%s)' % dict.__repr__(self)


class LogList(list):
    def __init__(self, *a):
        list.__init__(self, *a)
        self._log = None

    def __getitem__(self, k):
        if self._log is not None:
            self._log.append(('getitem', id(self), _k(k)))
        return list.__getitem__(self, k)

    def __setitem__(self, k, v):
        if self._log is not None:
            self._log.append(('setitem', id(self), _k(k)))
        list.__setitem__(self, k, v)

    def __delitem__(self, k):
        if self._log is not None:
            self._log.append(('delitem', id(self), _k(k)))
        list.__delitem__(self, k)

    def __repr__(self):
        return 'LogList(%s)' % list.__repr__(self)


class LogObj:
    """attribute object; reads of non-dunder attributes are logged"""
    def __init__(self, **kw):
        object.__setattr__(self, '_log', None)
        for k, v in kw.items():
            object.__setattr__(self, k, v)

    def __getattribute__(self, name):
        if not name.startswith('_'):
            log = object.__getattribute__(self, '_log')
            if log is not None:
                log.append(('getattr', id(self), name))
        return object.__getattribute__(self, name)

    def __repr__(self):
        d = object.__getattribute__(self, '__dict__')
        return 'LogObj(%s)' % ', '.join('%s=%r' % (k, v) for k, v in d.items() if k != '_log')


class PlainObj:
    def __init__(self, **kw):
        self.__dict__.update(kw)

    def __repr__(self):
        return 'PlainObj(%s)' % ', '.join('%s=%r' % kv for kv in self.__dict__.items())


class SlotObj:
    __slots__ = ('p', 'q', 'r')

    def __init__(self, **kw):
        for k, v in kw.items():
            setattr(self, k, v)

    def __repr__(self):
        return 'SlotObj(%s)' % ', '.join('%s=%r' % (k, getattr(self, k)) for k in self.__slots__ if hasattr(self, k))


NT = collections.namedtuple('NT', ['f', 'g'])


def _k(k):
    try:
        hash(k)
        return k
    except TypeError:
        return repr(k)


def attach_log(obj, log, seen=None):
    """point every logging container reachable from obj at `log`"""
    seen = set() if seen is None else seen
    if id(obj) in seen:
        return
    seen.add(id(obj))
    if isinstance(obj, (LogDict, LogList)):
        obj._log = log
    if isinstance(obj, LogObj):
        object.__setattr__(obj, '_log', log)
    if isinstance(obj, dict):
        for v in list(dict.values(obj)):
            attach_log(v, log, seen)
    elif isinstance(obj, (list, tuple)):
        for v in list.__iter__(obj) if isinstance(obj, list) else tuple.__iter__(obj):
            attach_log(v, log, seen)
    elif isinstance(obj, (LogObj, PlainObj)):
        for k, v in list(object.__getattribute__(obj, '__dict__').items()):
            if k != '_log':
                attach_log(v, log, seen)
    elif isinstance(obj, SlotObj):
        for k in SlotObj.__slots__:
            if hasattr(obj, k):
                attach_log(getattr(obj, k), log, seen)


# ---------------------------------------------------------------------------
# recipes

STR_KEYS = ['a', 'b', 'c', 'k', 'key', '', '0', '1', 'with space', 'é']
NT1 = collections.namedtuple('NT1', ['only'])


class TupleKey(tuple):
    """a tuple subclass used as a mapping key"""


# (keys that are instances of container SUBCLASSES - namedtuples with two fields and with one, a tuple subclass, a frozenset - are
# segments like any other hashable)
PATH_ONLY_KEYS = [0, 1, 7, ('t', 1), 'dot.ted', None, '*', '**', 2.5, True, NT(3, 4), NT1(7), TupleKey(('tk', 2)), frozenset(['fs'])]
ATTRS = ['a', 'b', 'c', 'x', 'y', '_priv']
LEAVES = [1, 0, -5, 2.5, 'leaf', '', None, True, b'by']


def gen_recipe(rng, depth, path_only_keys=False, width=3, shared=None, faults=False):
    """recipe: ('leaf', v) | ('dict'|'odict'|'logdict', [(k, r)...]) | ('list'|'tuple'|'loglist', [r...])
               | ('obj'|'logobj'|'slot', [(name, r)...]) | ('nt', [r, r]) | ('ref', i)"""
    if depth <= 0 or rng.random() < 0.18:
        return ('leaf', rng.choice(LEAVES))
    if shared is not None and shared and rng.random() < 0.12:
        return ('ref', rng.randrange(len(shared)))
    kinds = ['dict', 'dict', 'odict', 'logdict', 'list', 'list', 'tuple', 'loglist',
             'obj', 'logobj', 'slot', 'nt', 'empty']
    if faults:
        kinds += ['faultdict', 'faultlist', 'faultobj', 'dict', 'list', 'obj']
    kind = rng.choice(kinds)
    n = rng.randint(1, width)
    sub = lambda: gen_recipe(rng, depth - 1, path_only_keys, width, shared, faults)
    if kind == 'empty':
        return (rng.choice(['dict', 'list', 'tuple', 'odict']), [])
    if kind in ('dict', 'odict', 'logdict', 'faultdict'):
        pool = STR_KEYS + (PATH_ONLY_KEYS if path_only_keys else [])
        keys = []
        for k in rng.sample(pool, min(n, len(pool))):
            if not any(k == k2 for k2 in keys):  # (True == 1, 0 == False)
                keys.append(k)
        r = (kind, [(k, sub()) for k in keys])
    elif kind in ('list', 'tuple', 'loglist', 'faultlist'):
        r = (kind, [sub() for _ in range(n)])
    elif kind in ('obj', 'logobj', 'faultobj'):
        r = (kind, [(a, sub()) for a in rng.sample(ATTRS, min(n, len(ATTRS)))])
    elif kind == 'slot':
        r = (kind, [(a, sub()) for a in rng.sample(['p', 'q', 'r'], min(n, 3))])
    else:
        r = ('nt', [sub(), sub()])
    if shared is not None and rng.random() < 0.3:
        shared.append(r)
    return r


def build(recipe, shared_objs=None, shared_recipes=None):
    """materialise a recipe; 'ref' nodes point at one shared object per index"""
    if shared_objs is None:
        shared_objs = {}
    kind, body = recipe
    if kind == 'leaf':
        return body
    if kind == 'ref':
        if body not in shared_objs:
            shared_objs[body] = build(shared_recipes[body], shared_objs, shared_recipes)
        return shared_objs[body]
    b = lambda r: build(r, shared_objs, shared_recipes)
    if kind == 'dict':
        return {k: b(r) for k, r in body}
    if kind == 'odict':
        return OrderedDict((k, b(r)) for k, r in body)
    if kind == 'logdict':
        return LogDict((k, b(r)) for k, r in body)
    if kind == 'faultdict':
        from .mutmodel import FaultDict
        return FaultDict((k, b(r)) for k, r in body)
    if kind == 'faultlist':
        from .mutmodel import FaultList
        return FaultList([b(r) for r in body])
    if kind == 'faultobj':
        from .mutmodel import FaultObj
        return FaultObj(**{k: b(r) for k, r in body})
    if kind == 'list':
        return [b(r) for r in body]
    if kind == 'loglist':
        return LogList([b(r) for r in body])
    if kind == 'tuple':
        return tuple(b(r) for r in body)
    if kind == 'obj':
        return PlainObj(**{k: b(r) for k, r in body})
    if kind == 'logobj':
        return LogObj(**{k: b(r) for k, r in body})
    if kind == 'slot':
        return SlotObj(**{k: b(r) for k, r in body})
    if kind == 'nt':
        return NT(b(body[0]), b(body[1]))
    raise AssertionError(kind)


def children(obj):
    """[(segment usable in a Path, child)] in natural order, for walking valid paths"""
    if isinstance(obj, dict):
        return list(dict.items(obj))
    if isinstance(obj, (list, tuple)):
        it = list.__iter__(obj) if isinstance(obj, list) else tuple.__iter__(obj)
        return [(i, v) for i, v in enumerate(it)]
    if isinstance(obj, (PlainObj, LogObj)) or type(obj).__name__ == 'FaultObj':
        return [(k, v) for k, v in object.__getattribute__(obj, '__dict__').items() if k not in ('_log', '_fail')]
    if isinstance(obj, SlotObj):
        return [(k, getattr(obj, k)) for k in SlotObj.__slots__ if hasattr(obj, k)]
    return []


# ---------------------------------------------------------------------------
# instrumented callable

class Fn:
    """tagged callable: deterministic repr, __name__, programmable behaviour, call log"""
    def __init__(self, tag, behaviour=None, log=None):
        self.tag = tag
        self.behaviour = behaviour
        self.log = log if log is not None else []
        self.__name__ = 'f%s' % tag
        self.calls = 0

    def __call__(self, *args, **kw):
        self.calls += 1
        self.log.append((self.tag,) + tuple(id(a) for a in args))
        if self.behaviour is None:
            return (self.tag,) + args
        return self.behaviour(*args, **kw)

    def __repr__(self):
        return '<f%s>' % self.tag
