"""Monitors attached from outside (no edits to /repo).

RegistryContract  post-condition on every TargetRegistry.get_handler call: the handler
                  returned must be the one registered for the nearest registered type
                  of the object (computed independently from the MRO).
EvalTracer        wrapper around glom.core._glom recording the evaluation tree.
"""
import threading
import collections

from . import env

glom = env.bind()
import glom.core as gcore   # noqa: E402


# ---------------------------------------------------------------------------

def nearest_types(cls, obj, registered, fuzzy):
    """acceptable registered types for an instance `obj` of `cls`.
    registered: iterable of types having an entry for the operation
    fuzzy: types registered without exact=True"""
    registered = list(registered)
    if cls in registered:
        return [cls]
    mro = cls.__mro__
    real = [t for t in mro[1:] if t is not object and t in registered and t in fuzzy]
    if real:
        # minimal under issubclass: incomparable ancestors (mixins) are a tie
        return [t for t in real if not any(o is not t and issubclass(o, t) for o in real)]
    virt = []
    for t in registered:
        if t is object or t in mro or t not in fuzzy:
            continue
        try:
            if isinstance(obj, t):
                virt.append(t)
        except Exception:
            pass
    if virt:
        return [t for t in virt if not any(o is not t and _safe_issubclass(o, t) for o in virt)]
    if object in registered and object in fuzzy:
        return [object]
    return []


def _safe_issubclass(a, b):
    try:
        return issubclass(a, b)
    except Exception:
        return False


DEFAULT_FUZZY = None


class RegistryContract:
    def __init__(self, enforce_cb=None):
        self.lookups = 0
        self.disagreements = []
        self.fuzzy = {}         # id(registry) -> set of types registered non-exact
        self.installed = False
        self.lock = threading.Lock()

    def install(self):
        if self.installed:
            return
        TR = gcore.TargetRegistry
        self._orig_get, self._orig_reg, self._orig_regop = TR.get_handler, TR.register, TR.register_op
        contract = self

        def register(reg, target_type, **kwargs):
            exact = kwargs.get('exact', None)
            out = contract._orig_reg(reg, target_type, **kwargs)
            if not exact and isinstance(target_type, type):
                # kept on the registry object itself (ids of dead registries are re-used)
                reg.__dict__.setdefault('_rv_fuzzy', set()).add(target_type)
            return out

        def get_handler(reg, op, obj, path=None, raise_exc=True):
            try:
                ret = contract._orig_get(reg, op, obj, path=path, raise_exc=raise_exc)
                unreg = ret is False
            except gcore.UnregisteredTarget:
                ret, unreg = False, True
                contract._check(reg, op, obj, ret)
                raise
            contract._check(reg, op, obj, ret)
            return ret

        TR.register, TR.get_handler = register, get_handler
        # registries that already exist (the default one): their default types are all non-exact
        dflt = gcore._DEFAULT_SCOPE[gcore.TargetRegistry]
        known = set()
        for m in dflt._op_type_map.values():
            known.update(m)
        dflt.__dict__.setdefault('_rv_fuzzy', set()).update(known)
        self.installed = True

    def uninstall(self):
        if self.installed:
            gcore.TargetRegistry.get_handler, gcore.TargetRegistry.register = self._orig_get, self._orig_reg
            self.installed = False

    def _check(self, reg, op, obj, ret):
        self.lookups += 1
        type_map = reg._op_type_map.get(op, {})
        fuzzy = reg.__dict__.get('_rv_fuzzy', set())
        acc = nearest_types(type(obj), obj, list(type_map), fuzzy)
        expected = [type_map[t] for t in acc] if acc else [False]
        if not any(ret is h or (h is False and ret is False) for h in expected):
            if len(self.disagreements) < 50:
                got_types = [t.__name__ for t, h in type_map.items() if h is ret]
                self.disagreements.append({
                    'op': op, 'type': type(obj).__name__, 'mro': [c.__name__ for c in type(obj).__mro__],
                    'expected_types': [t.__name__ for t in acc], 'got_handler_of': got_types or repr(ret),
                    'registered': [t.__name__ for t in type_map], 'fuzzy': sorted(t.__name__ for t in fuzzy if t in type_map)})


# ---------------------------------------------------------------------------

class Frame:
    __slots__ = ('n', 'parent', 'spec', 'target', 'children', 'outcome', 'result', 'exc', 'scope', 'thread', 'depth', 'mode')

    def __init__(self, n, parent, spec, target, thread):
        self.n, self.parent, self.spec, self.target, self.thread = n, parent, spec, target, thread
        self.children, self.outcome, self.result, self.exc, self.scope = [], None, None, None, None
        self.depth = 0 if parent is None else parent.depth + 1
        self.mode = None

    def ancestors(self):
        out, f = [], self
        while f is not None:
            out.append(f)
            f = f.parent
        return out[::-1]


class EvalTracer:
    """Wrapper around glom.core._glom: records ENTER/EXIT of every spec evaluation as a tree
    (per thread).  Installed by rebinding the module global used by glom() and the entry
    in _DEFAULT_SCOPE used by every recursive scope[glom](...) call."""
    def __init__(self):
        self.tls = threading.local()
        self.installed = False
        self.frames = 0
        self.on_enter = None   # optional callback(frame, scope)
        self.on_exit = None

    def install(self):
        if self.installed:
            return
        self.orig = gcore._glom
        tracer = self
        orig = self.orig

        def _glom_traced(target, spec, scope):
            tls = tracer.tls
            stack = getattr(tls, 'stack', None)
            if stack is None:
                stack = tls.stack = []
                tls.roots = []
            parent = stack[-1] if stack else None
            tracer.frames += 1
            f = Frame(tracer.frames, parent, spec, target, threading.get_ident())
            if parent is None:
                tls.roots.append(f)
            else:
                parent.children.append(f)
            stack.append(f)
            if tracer.on_enter:
                tracer.on_enter(f, scope)
            try:
                res = orig(target, spec, scope)
            except BaseException as e:
                f.outcome, f.exc = 'raise', e
                f.scope = scope.maps[0].get(gcore.LAST_CHILD_SCOPE)
                stack.pop()
                if tracer.on_exit:
                    tracer.on_exit(f, scope)
                raise
            f.outcome, f.result = 'value', res
            f.scope = scope.maps[0].get(gcore.LAST_CHILD_SCOPE)
            stack.pop()
            if tracer.on_exit:
                tracer.on_exit(f, scope)
            return res

        self.wrapper = _glom_traced
        gcore._glom = _glom_traced
        gcore._DEFAULT_SCOPE[gcore.glom] = _glom_traced
        self.installed = True

    def uninstall(self):
        if self.installed:
            gcore._glom = self.orig
            gcore._DEFAULT_SCOPE[gcore.glom] = self.orig
            self.installed = False

    def reset(self):
        self.tls.stack = []
        self.tls.roots = []

    def roots(self):
        return getattr(self.tls, 'roots', [])


# ---------------------------------------------------------------------------

class ModeWatch:
    """sys.monitoring PY_START on the mode functions: which interpreter function handled which
    plain container.  Log entries: (mode name, id(spec), spec)."""
    NAMES = {'AUTO': 'auto', 'FILL': 'fill', '_glom_match': 'match', 'GROUP': 'group', 'mode': 'arg'}

    def __init__(self):
        import sys
        self.log = []
        self.ok = False
        mon = getattr(sys, 'monitoring', None)
        if mon is None:
            return
        import glom.matching as gm
        import glom.grouping as gg
        self.mon = mon
        self.codes = {
            gcore.AUTO.__code__: 'auto', gcore.FILL.__code__: 'fill', gm._glom_match.__code__: 'match',
            gg.GROUP.__code__: 'group', gcore._ArgValuator.mode.__code__: 'arg',
        }
        self.tool = None
        for tid in (mon.DEBUGGER_ID, mon.COVERAGE_ID, 4, 3):
            try:
                mon.use_tool_id(tid, 'rv-modewatch')
                self.tool = tid
                break
            except ValueError:
                continue
        if self.tool is None:
            return
        mon.register_callback(self.tool, mon.events.PY_START, self._cb)
        for code in self.codes:
            mon.set_local_events(self.tool, code, mon.events.PY_START)
        self.ok = True

    def _cb(self, code, offset):
        import sys
        name = self.codes.get(code)
        if name is None:
            return
        frame = sys._getframe(1)
        spec = frame.f_locals.get('spec', None)
        self.log.append((name, id(spec), spec))

    def close(self):
        if self.ok:
            for code in self.codes:
                self.mon.set_local_events(self.tool, code, 0)
            self.mon.register_callback(self.tool, self.mon.events.PY_START, None)
            self.mon.free_tool_id(self.tool)
            self.ok = False
